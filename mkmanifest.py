#!/usr/bin/env python3
"""Generates MANIFEST.json from the table below (single source of truth)."""
import json, subprocess
ALL = ["C%02d" % i for i in range(1, 21)]
CHECKS = {
 "C08": dict(cat="model_checking", ref="§5 C08, §4.5",
   text="Labelmap.tla models one version of a label volume over a region abstraction (sv[region], supervoxel->body map, allocation counter) with merge, cleave, split-supervoxel and renumber as actions; TLC explores every operation sequence with every argument choice up to the depth bound from several initial layouts and checks Inv_C08_Conservation, Act_C08_OnlyMoves, Inv_C12_NewLabelsFresh. The TLC state graph is realised on a real labelmap instance as a tree of versions: every transition is executed in a fresh child branch of the committed version holding its source state, then every read endpoint (raw and mapped volume decoded to regions and checked voxel-exact inside regions, size, supervoxels, sparsevol rles/srles, sparsevol-size, sparsevol-coarse, index, supervoxel-sizes, label, labels, mapping, sizes, listlabels) is compared with the specification's observation; the parent version is re-read (isolation from descendants/siblings); periodically the process is restarted (clean/SIGKILL) and the reads plus supervoxel-splits, maxlabel, nextlabel, mappings and info are compared again.",
   note="Voxel layouts are unions of box-shaped regions of a 4-block 32^3 volume with negative coordinates, a single voxel and one 8^3 sub-block; labels are compared modulo the bijection bound from the server's responses. Body split (/split), mutating raw writes and index/mapping ingest are not yet in the explored action set.",
   tech="TLC exhaustive exploration of Labelmap.tla + transition-cover replay as a version tree on a real labelmap instance"),
 "C17": dict(cat="model_checking", ref="§5 C17, §4.9",
   text="ImageVol.tla: versioned map block -> write id with intended extents; Step is the action for write(version, api raw|blocks, mutate, box, roi) and newversion; TLC explores every sequence of <=2 block-aligned writes and version steps on a 2x2x1 block lattice (Inv_C17_State, Inv_C17_RunAgrees, Act_C17_Step) and prints every maximal behaviour with the expected per-version block map, extents and written hull; ImageVol_cases.tla evaluates Go-seeded longer sequences (3-9 requests, 3x2x2 lattice, up to 4 versions). Every behaviour is replayed on real imageblk instances (six voxel types, several block sizes incl. anisotropic, negative origins): written voxels equal f(write id,x,y,z) bit for bit through GET raw 3-D, XY/XZ/YZ PNG slices, blocks, subvolblocks, specificblocks; unwritten voxels read as background; info/metadata extents cover written voxels; ROI-restricted writes change only blocks in the ROI; other versions unchanged. A direct ReadBlock/WriteBlock sweep covers sub-block offset classes.",
   note="Exhaustive TLC depth is 2 writes (3 was too slow); deeper histories are seeded sequences evaluated by TLC. Sub-block offset arithmetic is seeded exploration against the same oracle. Lossy/isotropic reads not checked. Replay is time-budgeted; unreplayed behaviours are counted in the evidence.",
   tech="TLC exhaustive exploration of ImageVol.tla + replay of every behaviour into real imageblk instances; TLC evaluation of seeded longer sequences"),
 "C04": dict(cat="model_checking", ref="§5 C04, §4.4",
   text="DvidPersist.tla: TLC explores a Crash between any two steps (in-memory step or store write) of every repo-level request, Recover (loadMetadata with its repairs) and a second crash during recovery, and checks Inv_C04_StartupSucceeds / Inv_C04_Recoverable (acknowledged facts visible, metadata well formed) and Inv_C12_CountersAhead. LogFrame.tla: every torn length of an append-only log yields exactly the complete records. Binding: the recorded store-write sequence of each request must equal the specification's program; then every store write N of a seeded multi-datatype workload is a crash point (process exit injected by the wrapping engine before and after the write, plus a second crash inside the recovery start-up): a new process must start, the metadata must be well formed and the canonical full snapshot must equal the fault-free reference after k or k+1 operations (all-or-nothing for repo-level/single-key operations; multi-key operations may be partial only inside their own instance). Filelog files are left torn at every byte length and read through ReadAll/StreamAll against LogFrame's expected record count.",
   note="Crash granularity is the store API call (a Badger transaction/batch is atomic by contract); torn Badger files are not injected. Known finding: POST repo/info alias+description is two saves.",
   tech="TLC model checking of DvidPersist.tla/LogFrame.tla + exhaustive crash-point enumeration of a workload on real processes via a crash-injecting store engine"),
 "C03": dict(cat="model_checking", ref="§5 C03, §4.4",
   text="DvidPersist.tla models every repo-level request as its program of in-memory steps and store writes with CleanRestart/Crash/Recover; TLC checks Act_C03_RestartIsStutter (rebuilding the manager state from what the writes persisted yields the same observable projection) for every reachable state. Binding: (1) the store-write sequence of every repo-level request, recorded by the wrapping store engine, must equal the program the specification prescribes (table emitted by TLC); (2) seeded multi-datatype histories are executed on the real server with a real process restart (alternating clean stop / SIGKILL while idle) after every operation and the complete API snapshot (repos info, DAG, branch heads, flags, notes, logs, instance settings/tags, every data read endpoint at every version) must be identical before and after.",
   note="Trusts Badger durability across process kill. Datatypes in the histories: keyvalue, roi, annotation, neuronjson, uint8blk (labelmap restarts are exercised by C08). master's branch-versions listing is excluded (ill-defined with merge nodes even without restart).",
   tech="TLC model checking of DvidPersist.tla (restart as stuttering) + store-write trace conformance + restart-after-every-operation snapshot comparison on real processes"),
 "C05": dict(cat="model_checking", ref="§5 C05",
   text="KVRange.tla defines range/listing results from the point-read semantics of KVRead.tla and DeleteRange as an action; TLC evaluates every generated case (DAG shape x joint placement of three prefix-related keys x optional DeleteRange) and checks the DeleteRange claims (exactly the interval's keys vanish at the node and its descendants; ancestors, siblings and other keys unchanged). Each case is replayed on the real server: all 21 intervals over 6 endpoints at every version through keyrange, keyrangevalues (protobuf/json/tar), keys, keyvalues and the store's GetRange/KeysInRange/SendKeysInRange/ProcessRange, compared with TLC's expected point reads filtered by the interval; DeleteRange is executed through the store API.",
   note="Shapes: all with 3 and 4 nodes (+300 seeded 5-node shapes thorough); joint placements are seeded samples (16/40 per shape). Intervals containing a key in merge conflict are skipped.",
   tech="TLC evaluation of KVRange.tla on generated cases + replay into the real server (HTTP and store API)"),
 "C01": dict(cat="model_checking", ref="§5 C01, §4.2",
   text="KVRead.tla defines the read semantics (unsuperseded live candidate among ancestors) and a transcription of findMatch; KVShapes.tla makes TLC enumerate every DAG shape up to the bound (all ordered parent tuples incl. 3-parent merges and merges of ancestors) and evaluate the expected read of every placement of value/tombstone/nothing at every node. Every (shape, placement, queried node) is replayed on the real server: DAG built through the HTTP API, entries written under one key per placement before each node is committed, GET/HEAD key at every node, plus synthetic key sets in shuffled orders through GetBestKeyVersion/VersionedKeyValue.",
   note="Trusts TLC and the bound (all shapes with <=5 nodes quick; 6 nodes with 2-parent merges thorough). Only the keyvalue datatype's point reads are driven; other datatypes share the resolver.",
   tech="TLC exhaustive enumeration of DAG shapes x placements (KVShapes.tla/KVRead.tla) + state-enumeration replay into the real server"),
 "C07": dict(cat="model_checking", ref="§5 C07, §4.1",
   text="DvidDAG.tla is model-checked exhaustively by TLC (all request sequences incl. refused ones within MaxNodes/MaxRepos bounds: Inv_C07, Act_C07_RejectIsStutter); every transition of the TLC state graph and every refused request of the argument domain is replayed on the real server (HTTP through ServeSingleHTTP on a Badger store) with the projected DAG JSON, branch heads and identifier maps compared before and after each request.",
   note="Trusts TLC, the bounded constants (<=4/5 nodes, <=2 repos, <=3 merge parents), and that /api/repo/<u>/info, uuid:branch addressing and branch-versions expose the graph faithfully.",
   tech="TLC exhaustive model checking of DvidDAG.tla + transition-cover replay of the TLC state graph into the real server"),
}
NOT_YET = "check not built yet in this round (planned in DESIGN.md §10)"
def main():
    hooks_commits = subprocess.run(["git","-C","/repo","log","--format=%h %s","2666ee5..HEAD"],capture_output=True,text=True).stdout.strip().split("\n")
    hook_shas=[l.split()[0] for l in hooks_commits if l and l.split(" ",1)[1].startswith("verif:")]
    m = {
     "version": 1,
     "setup_cmd": "cd /verif && ./setup.sh",
     "hooks": {"guard": "verif (Go build tag)", "enable": "go build -tags badger,verif (done by /verif/check for every invocation)",
               "baseline_off_cmd": "/verif/baseline_off.sh", "source_commits": hook_shas, "add_only": True},
     "engines": [
       {"name":"tlc","path":"/opt/veriftools/tla/tla2tools.jar","serves_properties":sorted(CHECKS),"kind_free_text":"TLC 1.8.0 explicit-state model checker over /verif/specs/*.tla"},
       {"name":"dvidnode","path":"/verif/harness/cmd/dvidnode","serves_properties":sorted(CHECKS),"kind_free_text":"server-under-test process: real DVID start-up sequence, Badger+filelog stores, crash-injecting store wrapper, gate scheduler"},
       {"name":"vcheck","path":"/verif/harness/cmd/vcheck","serves_properties":sorted(CHECKS),"kind_free_text":"checker: runs TLC, replays TLC behaviours into dvidnode, validates recorded traces with TLC, writes evidence"}],
     "checks": [], "not_applicable": [],
     "notes": "All checks: ./check <id> [--tier quick|thorough]; exit 0 held, 1 violation (VIOLATION line), 2 infrastructure problem (never a verdict). Known findings: /verif/known_findings.json."
    }
    for pid in ALL:
        if pid in CHECKS:
            c=CHECKS[pid]
            m["checks"].append({"property_id":pid,"quick_cmd":"./check %s --tier quick"%pid,"thorough_cmd":"./check %s --tier thorough"%pid,
              "evidence_file":"/verif/evidence/%s.json"%pid,"replay_cmd_template":"./check %s --replay {path}"%pid,"engine":"vcheck",
              "level_claimed":{"category":c["cat"],"text":c["text"],"design_ref":c["ref"]},"level_note":c["note"],"technique":c["tech"]})
        else:
            m["not_applicable"].append({"property_id":pid,"reason":NOT_YET})
    json.dump(m,open("/verif/MANIFEST.json","w"),indent=1)
main()
