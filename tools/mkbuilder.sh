#!/bin/bash
# tools/mkbuilder.sh <X>: private clone of /verif at /tmp/bld/<X> and worktree of /repo at /tmp/bld/<X>-repo
# for a builder sub-agent (merged back with tools/mergebuilder.sh).
set -eu
X="$1"
mkdir -p /tmp/bld
git clone -q /verif /tmp/bld/$X
git -C /repo worktree add --detach -q /tmp/bld/$X-repo HEAD
cd /tmp/bld/$X
sed -i "s#=> /repo#=> /tmp/bld/$X-repo#" harness/go.mod
sed -i "s#/repo/go.sum#/tmp/bld/$X-repo/go.sum#" check setup.sh
sed -i "s#^set -u#set -u\nexport VERIF_SERIALIZE_THOROUGH=1#" check
git rev-parse --short HEAD
