#!/bin/bash
# tools/enginetests.sh: runs the repository's own engine-enabled tests (-tags badger; NOT the pinned suite, which is
# built without an engine) at the pinned base commit and at /repo HEAD in scratch worktrees and compares the
# pass/fail sets.  Used to confirm that the fix: commits break no upstream test that an engine-enabled build runs.
set -u
export GOFLAGS=-mod=mod GOPROXY=off GOSUMDB=off GOTOOLCHAIN=local
base=$(git -C /repo log --format=%h --reverse | head -1)
S=$(mktemp -d /tmp/enginetests.XXXXXX)
for w in base head; do
  rev=$base; [ $w = head ] && rev=HEAD
  git -C /repo worktree add --detach -q $S/$w $rev
  (cd $S/$w && go test -tags badger -vet=off -count=1 -p 4 -json ./... 2>/dev/null | python3 -c '
import sys,json
res={}
for l in sys.stdin:
    try: e=json.loads(l)
    except Exception: continue
    if e.get("Test") and e.get("Action") in ("pass","fail","skip"): res[e["Package"].split("dvid/")[-1]+":"+e["Test"]]=e["Action"]
for k in sorted(res): print(k,res[k])' > $S/$w.txt)
  git -C /repo worktree remove --force $S/$w
done
echo "base: $(grep -c ' pass' $S/base.txt) pass, $(grep -c ' fail' $S/base.txt) fail; head: $(grep -c ' pass' $S/head.txt) pass, $(grep -c ' fail' $S/head.txt) fail"
diff $S/base.txt $S/head.txt && echo "identical pass/fail sets"
rm -rf $S
