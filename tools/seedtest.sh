#!/bin/bash
# seedtest.sh <seed-id> <agent-worktree> <check> [<check>...]
# Confirms a seeded change (patch applies, compiles, pinned suite passes, demo fails with /
# passes without), stores it under /verif/seeded/<seed-id>/, then runs the named checks
# against /repo with the patch applied and undoes it straight afterwards.
set -u
id="$1"; wt="$2"; shift 2
export GOFLAGS=-mod=mod GOPROXY=off GOSUMDB=off GOTOOLCHAIN=local
# VERIF_ROOT / REPO_ROOT: run against a private clone (tools/mkbuilder.sh) instead of /verif and /repo
V=${VERIF_ROOT:-/verif}; R=${REPO_ROOT:-/repo}
out=$V/seeded/$id
mkdir -p "$out"
patch="$out/patch.diff"
if [ "$wt" = "-" ]; then
  # re-run of the checks against an already confirmed seeded change (its worktree is gone)
  [ -s "$out/confirm.log" ] && grep -q "^confirm:" "$out/confirm.log" && ! grep -q "NOT CONFIRMED" "$out/confirm.log" || { echo "no confirmed change $id"; exit 2; }
else
cp "$wt"/seeded_out/* "$out"/ 2>/dev/null
democmd=$(grep -v '^\s*#' "$out/demo_cmd.txt" | grep -m1 'go ' )
log="$out/confirm.log"; : > "$log"
cd "$wt" || exit 2
git checkout -q -- . 
echo "== demo WITHOUT change: $democmd" >> "$log"
( eval "$democmd" ) >> "$log" 2>&1; rc_without=$?
git apply "$patch" || { echo "patch does not apply"; exit 2; }
go build ./... >> "$log" 2>&1; go build -tags badger ./datastore/... ./datatype/... ./server/... ./storage/... ./dvid/... >> "$log" 2>&1; rc_build=$?
echo "== demo WITH change" >> "$log"
( eval "$democmd" ) >> "$log" 2>&1; rc_with=$?
echo "== pinned suite WITH change" >> "$log"
go test -json -vet=off -count=1 -timeout 25m ./... > /tmp/seed_$id.json 2>&1
python3 - /tmp/seed_$id.json >> "$log" <<'PY'
import json,sys
base=set(json.load(open('/root/.vp/BASELINE.json'))['stable_pass'])
res={}
for l in open(sys.argv[1]):
    try: e=json.loads(l)
    except Exception: continue
    if e.get('Test') and e.get('Action') in ('pass','fail'):
        res[e['Package']+'::'+e['Test']]=e['Action']
bad=[t for t in sorted(base) if res.get(t)!='pass']
print("pinned suite: %d of %d pass"%(len(base)-len(bad),len(base)), bad)
sys.exit(1 if bad else 0)
PY
rc_suite=$?
rm -f /tmp/seed_$id.json
git checkout -q -- .
echo "confirm: build_rc=$rc_build demo_without_rc=$rc_without (want 0) demo_with_rc=$rc_with (want !=0) suite_rc=$rc_suite (want 0)" | tee -a "$log"
if [ $rc_without -ne 0 ] || [ $rc_with -eq 0 ] || [ $rc_suite -ne 0 ] || [ $rc_build -ne 0 ]; then echo "NOT CONFIRMED" | tee -a "$log"; exit 3; fi
fi
# run our checks against /repo with the patch (other check invocations wait meanwhile)
if [ "$R" = /repo ]; then exec 8>/tmp/.verif-repo.lock; flock -x 8; fi
export SEEDTEST=1
cd $R && git apply "$patch" || { echo "patch does not apply to $R"; exit 2; }
res="$out/checks.log"; [ "$wt" = "-" ] && echo "== re-run $(date -u +%H:%M)" >> "$res" || : > "$res"
for c in "$@"; do
  echo "== ./check $c (quick) with seeded change $id" >> "$res"
  ( cd $V && ./check $c --tier quick ) > /tmp/seedrun.$$ 2>&1; rc=$?
  grep -E "VIOLATION|KNOWN-FINDING|^C[0-9][0-9]:|INFRA" /tmp/seedrun.$$ | head -8 >> "$res"
  echo "exit=$rc" >> "$res"
  echo "check $c: exit=$rc ($(grep -c VIOLATION /tmp/seedrun.$$) violation lines)"
done
rm -f /tmp/seedrun.$$
git -C $R checkout -q -- .
git -C $R status --short | head -3
rm -rf $V/replays
