import sys
X=sys.argv[1]; props=open(sys.argv[2]).read(); may=sys.argv[3]
t=open('brief_J.txt').read()
i=t.index('YOUR PROPERTIES:'); j=t.index('For each property build')
t=t[:i]+props+'\n\n'+t[j:]
t=t.replace('/tmp/bld/J','/tmp/bld/'+X).replace('you MAY edit specs/DvidDAG.tla, specs/DvidKV.tla, harness/internal/dagm and harness/cmd/vcheck/c07.go (keep changes additive and keep the existing checks passing)', may)
t+='\n\nShared-machine rules: other agents are working concurrently: never kill processes you did not start (never `pkill -f tlc2.TLC` or similar), put `timeout` on every TLC call, keep scratch files under /tmp/bld/'+X+'-scr and remove them when done. The independent gap audit /tmp/bld/'+X+'/GAPS.md lists what the current checks do not exercise; your task is a subset of it (ids given above) - read those entries, they carry file:line pointers. After changing a shared adapter (harness/internal/*, c08.go workers, world.go) re-run EVERY check that uses it under seeds 1-3 before committing (a check that alarms on the unchanged tree is worse than a missing one). Hooks, if you need any, go in ONE extra commit in your repo worktree whose message starts "verif:" (add-only one-liners `dvid.VerifPoint(site, id)` guarded by the existing tag pair dvid/verifpoint_on.go|off.go). Final reply: what you built, per gap id closed / not closed, defects found (commit hashes), mutants caught/missed, run times, proposed MANIFEST text changes.'
open('brief_%s.txt'%X,'w').write(t)
