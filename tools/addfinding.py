#!/usr/bin/env python3
# tools/addfinding.py <property> <id> <status> <commit-or-> <what>   -- appends one entry to known_findings.json
import json, sys, os
p = os.path.join(os.path.dirname(os.path.abspath(__file__)), '..', 'known_findings.json')
k = json.load(open(p))
prop, fid, status, commit, what = sys.argv[1:6]
k['findings'] = [f for f in k['findings'] if not (f['property'] == prop and f['id'] == fid)]
e = {"property": prop, "id": fid, "status": status}
if status == 'fixed':
    e["commit"] = commit
e["what"] = what
if status == 'fixed':
    e["line"] = "fixed: property=%s %s %s" % (prop, commit, what)
k['findings'].append(e)
json.dump(k, open(p, 'w'), indent=1, ensure_ascii=False)
open(p, 'a').write("\n")
