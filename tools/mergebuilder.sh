#!/bin/bash
# mergebuilder.sh <clone> <base-commit> <sha-map "old:new old:new ...">
# Takes the files a builder added/changed in its clone (except known_findings.json, go.mod,
# check, setup.sh, MANIFEST) into /verif and merges its known_findings entries.
set -e
clone="$1"; base="$2"; shamap="${3:-}"
cd /verif
git fetch -q "$clone" HEAD
files=$(git diff --name-only "$base" FETCH_HEAD | grep -v -E '^(known_findings.json|harness/go.mod|harness/go.sum|check|setup.sh|MANIFEST.json|mkmanifest.py)$' || true)
echo "$files" | tr '\n' ' '; echo
# files changed on both sides since the base are merged three-way (git merge-file); the rest is taken as is
for f in $files; do
  if ! git cat-file -e "FETCH_HEAD:$f" 2>/dev/null; then git rm -q -f --ignore-unmatch "$f"; continue; fi
  if git cat-file -e "$base:$f" 2>/dev/null && [ -f "$f" ] && ! git diff --quiet "$base" -- "$f"; then
    case "$f" in evidence/*|coverage/*) continue;; esac
    git show "$base:$f" > /tmp/mb_base.$$; git show "FETCH_HEAD:$f" > /tmp/mb_theirs.$$
    if git merge-file -q "$f" /tmp/mb_base.$$ /tmp/mb_theirs.$$; then echo "merged 3-way: $f"; else echo "CONFLICT in $f (markers left in file)"; fi
    rm -f /tmp/mb_base.$$ /tmp/mb_theirs.$$
  else
    git checkout FETCH_HEAD -- "$f"
  fi
done
git show FETCH_HEAD:known_findings.json > /tmp/kf_builder.json
python3 - "$shamap" <<'PY'
import json,sys
mine=json.load(open('/verif/known_findings.json'))
theirs=json.load(open('/tmp/kf_builder.json'))
have={f['id'] for f in mine['findings']}
shamap=dict(x.split(':') for x in sys.argv[1].split()) if sys.argv[1] else {}
for f in theirs['findings']:
    if f['id'] in have: continue
    c=f.get('commit','')
    for k,v in shamap.items():
        if k in c: f['commit']=c.replace(k,v) if len(c)>12 else v
        if 'line' in f: f['line']=f['line'].replace(k,v)
    if 'line' not in f and f.get('status')=='fixed':
        f['line']="fixed: property=%s %s %s"%(f['property'],f.get('commit',''),f['what'])
    mine['findings'].append(f); print('added finding',f['id'],f.get('status'),f.get('commit'))
json.dump(mine,open('/verif/known_findings.json','w'),indent=1)
PY
rm -f /tmp/kf_builder.json
