#!/bin/bash
# tools/seedall.sh [id-prefix]: re-runs, against the current tree, every confirmed seeded change under seeded/
# with the checks that were run for it before (first check named in its checks.log per line "== ./check Cnn").
# Prints one line per change: caught-by / missed / patch no longer applies.  Results go to seeded/REGRESSION.md.
V=${VERIF_ROOT:-/verif}; R=${REPO_ROOT:-/repo}
cd $V
out=seeded/REGRESSION.md
echo "# Seeded changes re-run against the tree at $(git -C $R log --format=%h -1) / verif $(git log --format=%h -1) ($(date -u +%F\ %H:%M))" > $out
for d in seeded/${1:-}*/; do
  id=$(basename $d)
  [ -s $d/patch.diff ] && grep -q "^confirm:" $d/confirm.log 2>/dev/null && ! grep -q "NOT CONFIRMED" $d/confirm.log || continue
  checks=$(grep -o "^== ./check C[0-9][0-9]" $d/checks.log | awk '{print $3}' | sort -u | tr '\n' ' ')
  if ! git -C $R apply --check $V/$d/patch.diff 2>/dev/null; then echo "- $id: patch no longer applies (code changed by later fixes)" | tee -a $out; continue; fi
  res=$(./tools/seedtest.sh $id - $checks 2>&1 | grep "^check " | tr '\n' ';')
  echo "- $id: $res" | tee -a $out
done
